//! C06 audit: the witness-assignment routines (`set_proof_with_pis_target`, `set_fri_proof_target`)
//! silently truncate / re-chunk over-long proof components, so that proofs that the native
//! verifier rejects for their shape are accepted by the in-circuit verifier.
//!
//! Run: cargo test --offline --release -p plonky2 --test c06_shape -- --nocapture

use anyhow::Result;
use plonky2::field::extension::Extendable;
use plonky2::field::types::Field;
use plonky2::hash::hash_types::RichField;
use plonky2::iop::witness::{PartialWitness, WitnessWrite};
use plonky2::plonk::circuit_builder::CircuitBuilder;
use plonky2::plonk::circuit_data::{CircuitConfig, CircuitData};
use plonky2::plonk::config::{GenericConfig, PoseidonGoldilocksConfig};
use plonky2::plonk::proof::ProofWithPublicInputs;

const D: usize = 2;
type C = PoseidonGoldilocksConfig;
type F = <C as GenericConfig<D>>::F;

fn inner_circuit(config: &CircuitConfig) -> (CircuitData<F, C, D>, ProofWithPublicInputs<F, C, D>) {
    let mut builder = CircuitBuilder::<F, D>::new(config.clone());
    let x = builder.add_virtual_target();
    let mut acc = x;
    for _ in 0..200 {
        acc = builder.mul(acc, x);
        acc = builder.add(acc, x);
    }
    builder.register_public_input(x);
    builder.register_public_input(acc);
    // Pad so that the inner proof has at least one FRI reduction step.
    while builder.num_gates() < 600 {
        builder.add_gate(plonky2::gates::noop::NoopGate, vec![]);
    }
    let data = builder.build::<C>();
    let mut pw = PartialWitness::new();
    pw.set_target(x, F::from_canonical_u64(3)).unwrap();
    let proof = data.prove(pw).unwrap();
    data.verify(proof.clone()).unwrap();
    (data, proof)
}

struct Outer {
    data: CircuitData<F, C, D>,
    pt: plonky2::plonk::proof::ProofWithPublicInputsTarget<D>,
    vdt: plonky2::plonk::circuit_data::VerifierCircuitTarget,
}

fn outer_circuit(inner: &CircuitData<F, C, D>, config: &CircuitConfig) -> Outer {
    let mut builder = CircuitBuilder::<F, D>::new(config.clone());
    let pt = builder.add_virtual_proof_with_pis(&inner.common);
    let vdt = builder.add_virtual_verifier_data(inner.common.config.fri_config.cap_height);
    builder.verify_proof::<C>(&pt, &vdt, &inner.common);
    builder.register_public_inputs(&pt.public_inputs);
    let data = builder.build::<C>();
    Outer { data, pt, vdt }
}

/// Returns Ok(true) if an outer proof was produced and verified.
fn try_outer(
    outer: &Outer,
    inner: &CircuitData<F, C, D>,
    proof: &ProofWithPublicInputs<F, C, D>,
) -> Result<bool> {
    let mut pw = PartialWitness::new();
    pw.set_proof_with_pis_target(&outer.pt, proof)?;
    pw.set_verifier_data_target(&outer.vdt, &inner.verifier_only)?;
    let outer_proof = outer.data.prove(pw)?;
    assert_eq!(outer_proof.public_inputs, proof.public_inputs);
    outer.data.verify(outer_proof)?;
    Ok(true)
}

fn report<F2: RichField + Extendable<D>>(
    name: &str,
    native: &Result<()>,
    outer: &std::result::Result<Result<bool>, Box<dyn std::any::Any + Send>>,
) -> bool {
    let native_s = match native {
        Ok(()) => "ACCEPT".to_string(),
        Err(e) => format!("reject ({})", e.to_string().lines().next().unwrap_or("")),
    };
    let (outer_s, outer_ok) = match outer {
        Ok(Ok(true)) => ("ACCEPT (outer proof produced and verified)".to_string(), true),
        Ok(Ok(false)) => ("reject".to_string(), false),
        Ok(Err(e)) => (
            format!("reject ({})", e.to_string().lines().next().unwrap_or("")),
            false,
        ),
        Err(_) => ("reject (panic)".to_string(), false),
    };
    let mismatch = native.is_ok() != outer_ok;
    println!(
        "[{}] native: {} | in-circuit: {} {}",
        name,
        native_s,
        outer_s,
        if mismatch { "  <== MISMATCH" } else { "" }
    );
    mismatch
}

#[test]
fn c06_shape_mismatches() {
    let config = CircuitConfig::standard_recursion_config();
    let (inner, proof) = inner_circuit(&config);
    println!(
        "inner degree_bits = {}, reduction_arity_bits = {:?}, final_poly_len = {}",
        inner.common.degree_bits(),
        inner.common.fri_params.reduction_arity_bits,
        inner.common.fri_params.final_poly_len()
    );
    let outer = outer_circuit(&inner, &config);
    println!("outer degree_bits = {}", outer.data.common.degree_bits());

    let mut variants: Vec<(&str, ProofWithPublicInputs<F, C, D>)> = vec![];
    variants.push(("honest", proof.clone()));

    // V1: one extra (arbitrary) opening appended to the zeta batch.
    let mut p = proof.clone();
    p.proof
        .openings
        .quotient_polys
        .push(<F as Extendable<D>>::Extension::from_canonical_u64(12345));
    variants.push(("V1 extra quotient_polys opening", p));

    // V2: one extra opening appended to the zeta*g batch.
    let mut p = proof.clone();
    p.proof
        .openings
        .plonk_zs_next
        .push(<F as Extendable<D>>::Extension::from_canonical_u64(777));
    variants.push(("V2 extra plonk_zs_next opening", p));

    // V3: move the boundary between two opening vectors (flattening is unchanged).
    let mut p = proof.clone();
    let last = p.proof.openings.constants.pop().unwrap();
    p.proof.openings.plonk_sigmas.insert(0, last);
    variants.push(("V3 constants/plonk_sigmas boundary moved", p));

    // V4: extra hash appended to the wires cap.
    let mut p = proof.clone();
    let h = p.proof.wires_cap.0[0];
    p.proof.wires_cap.0.push(h);
    variants.push(("V4 extra wires_cap entry", p));

    // V5: an extra (duplicated) reduction step in every query round.
    let mut p = proof.clone();
    for q in p.proof.opening_proof.query_round_proofs.iter_mut() {
        let s = q.steps.last().unwrap().clone();
        q.steps.push(s);
    }
    variants.push(("V5 extra FRI query step", p));

    // V6: extra entry in a commit-phase cap.
    let mut p = proof.clone();
    let h = p.proof.opening_proof.commit_phase_merkle_caps[0].0[0];
    p.proof.opening_proof.commit_phase_merkle_caps[0].0.push(h);
    variants.push(("V6 extra commit_phase cap entry", p));

    // V7: extra entries in all three caps at once.
    let mut p = proof.clone();
    let h = p.proof.wires_cap.0[0];
    p.proof.wires_cap.0.push(h);
    p.proof.plonk_zs_partial_products_cap.0.push(h);
    p.proof.quotient_polys_cap.0.push(h);
    variants.push(("V7 extra entry in all caps", p));

    // Control: a genuinely tampered opening must be rejected by both.
    let mut p = proof.clone();
    p.proof.openings.wires[0] += <F as Extendable<D>>::Extension::ONE;
    variants.push(("control: tampered wire opening", p));

    let mut mismatches = vec![];
    for (name, p) in variants {
        let native = inner.verify(p.clone());
        let o = std::panic::catch_unwind(std::panic::AssertUnwindSafe(|| {
            try_outer(&outer, &inner, &p)
        }));
        if report::<F>(name, &native, &o) {
            mismatches.push(name);
        }
    }
    println!("mismatches: {:?}", mismatches);
    assert!(
        mismatches.is_empty(),
        "in-circuit verifier disagrees with native verifier on: {:?}",
        mismatches
    );
}
