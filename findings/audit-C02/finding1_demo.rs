//! C02 audit, finding 1.
//!
//! `CircuitData::verify_compressed` / `VerifierCircuitData::verify_compressed`
//! (`CompressedProofWithPublicInputs::verify`) never validates the shape of the `OpeningSet`
//! (`validate_proof_with_pis_shape` is only called from `plonk::verifier::verify`).
//! `verify_with_challenges` iterates over `proof.openings.quotient_polys.chunks(..)`, so with an
//! EMPTY `quotient_polys` opening vector the identity `vanishing(zeta) == Z_H(zeta) * t(zeta)` is
//! checked for no challenge at all. The FRI check still passes if the committed quotient polynomials
//! are identically zero (their missing openings would contribute `alpha^i * 0`).
//!
//! The forger below uses ONLY public API of the unmodified crate, commits to all-zero wire / Z /
//! partial-product / quotient polynomials (i.e. no witness whatsoever), and gets `verify_compressed`
//! to accept ANY public inputs for ANY circuit.
//!
//! Run:
//!   cargo test --offline --release -p plonky2 --test c02_finding1_compressed_no_shape -- --nocapture

use plonky2::field::extension::Extendable;
use plonky2::field::polynomial::PolynomialCoeffs;
use plonky2::field::types::Field;
use plonky2::fri::oracle::PolynomialBatch;
use plonky2::fri::structure::{
    FriBatchInfo, FriInstanceInfo, FriOpeningBatch, FriOpenings, FriOracleInfo, FriPolynomialInfo,
};
use plonky2::gadgets::lookup::TIP5_TABLE;
use plonky2::hash::hash_types::RichField;
use plonky2::iop::challenger::Challenger;
use plonky2::iop::witness::{PartialWitness, WitnessWrite};
use plonky2::plonk::circuit_builder::CircuitBuilder;
use plonky2::plonk::circuit_data::{CircuitConfig, CircuitData};
use plonky2::plonk::config::{GenericConfig, Hasher, PoseidonGoldilocksConfig};
use plonky2::plonk::proof::{
    CompressedProofWithPublicInputs, OpeningSet, Proof, ProofWithPublicInputs,
};
use plonky2::util::timing::TimingTree;

const D: usize = 2;
type C = PoseidonGoldilocksConfig;
type F = <C as GenericConfig<D>>::F;

/// Forge a proof for `public_inputs` without knowing any witness.
fn forge<F: RichField + Extendable<D>, C: GenericConfig<D, F = F>, const D: usize>(
    data: &CircuitData<F, C, D>,
    public_inputs: Vec<F>,
) -> ProofWithPublicInputs<F, C, D> {
    let common = &data.common;
    let config = &common.config;
    assert!(!config.zero_knowledge, "demo written for the non-zk configs");
    let n = common.degree();
    let rate_bits = config.fri_config.rate_bits;
    let cap_height = config.fri_config.cap_height;
    let mut timing = TimingTree::default();

    let zero_batch = |num_polys: usize, timing: &mut TimingTree| {
        PolynomialBatch::<F, C, D>::from_coeffs(
            vec![PolynomialCoeffs::new(vec![F::ZERO; n]); num_polys],
            rate_bits,
            false,
            cap_height,
            timing,
            None,
        )
    };

    let num_zs_pp = config.num_challenges * (1 + common.num_partial_products);
    let num_lookup = config.num_challenges * common.num_lookup_polys;
    let num_quotient = config.num_challenges * common.quotient_degree_factor;

    // "Witness": nothing. All prover polynomials are identically zero.
    let wires = zero_batch(config.num_wires, &mut timing);
    let zs_pp_lookup = zero_batch(num_zs_pp + num_lookup, &mut timing);
    let quotient = zero_batch(num_quotient, &mut timing);
    let constants_sigmas = &data.prover_only.constants_sigmas_commitment;

    // Fiat-Shamir transcript, exactly as `prove_with_partition_witness` / `get_challenges`.
    let public_inputs_hash = C::InnerHasher::hash_no_pad(&public_inputs);
    let mut challenger = Challenger::<F, C::Hasher>::new();
    common.fri_params.observe(&mut challenger);
    challenger.observe_hash::<C::Hasher>(data.verifier_only.circuit_digest);
    challenger.observe_hash::<C::InnerHasher>(public_inputs_hash);
    challenger.observe_cap::<C::Hasher>(&wires.merkle_tree.cap);
    let _betas = challenger.get_n_challenges(config.num_challenges);
    let _gammas = challenger.get_n_challenges(config.num_challenges);
    if common.num_lookup_polys != 0 {
        let _deltas = challenger.get_n_challenges(2 * config.num_challenges);
    }
    challenger.observe_cap::<C::Hasher>(&zs_pp_lookup.merkle_tree.cap);
    let _alphas = challenger.get_n_challenges(config.num_challenges);
    challenger.observe_cap::<C::Hasher>(&quotient.merkle_tree.cap);
    let zeta = challenger.get_extension_challenge::<D>();
    let g = F::Extension::primitive_root_of_unity(common.degree_bits());

    let mut openings = OpeningSet::new(
        zeta,
        g,
        constants_sigmas,
        &wires,
        &zs_pp_lookup,
        &quotient,
        common,
    );
    // THE MANGLING: drop the quotient openings.
    openings.quotient_polys.clear();

    // What `OpeningSet::to_fri_openings` (pub(crate)) produces for this opening set.
    let mut zeta_values = [
        openings.constants.as_slice(),
        openings.plonk_sigmas.as_slice(),
        openings.wires.as_slice(),
        openings.plonk_zs.as_slice(),
        openings.partial_products.as_slice(),
        openings.quotient_polys.as_slice(),
    ]
    .concat();
    let mut next_values = openings.plonk_zs_next.clone();
    if !openings.lookup_zs.is_empty() {
        zeta_values.extend(openings.lookup_zs.iter());
        next_values.extend(openings.lookup_zs_next.iter());
    }
    let fri_openings = FriOpenings {
        batches: vec![
            FriOpeningBatch {
                values: zeta_values,
            },
            FriOpeningBatch {
                values: next_values,
            },
        ],
    };
    challenger.observe_openings(&fri_openings);

    // What `CommonCircuitData::get_fri_instance` (pub(crate)) produces.
    let num_preprocessed = common.sigmas_range().end;
    let instance = FriInstanceInfo::<F, D> {
        oracles: vec![
            FriOracleInfo {
                num_polys: num_preprocessed,
                blinding: false,
            },
            FriOracleInfo {
                num_polys: config.num_wires,
                blinding: true,
            },
            FriOracleInfo {
                num_polys: num_zs_pp + num_lookup,
                blinding: true,
            },
            FriOracleInfo {
                num_polys: num_quotient,
                blinding: true,
            },
        ],
        batches: vec![
            FriBatchInfo {
                point: zeta,
                polynomials: [
                    FriPolynomialInfo::from_range(0, 0..num_preprocessed),
                    FriPolynomialInfo::from_range(1, 0..config.num_wires),
                    FriPolynomialInfo::from_range(2, 0..num_zs_pp),
                    FriPolynomialInfo::from_range(3, 0..num_quotient),
                    FriPolynomialInfo::from_range(2, num_zs_pp..num_zs_pp + num_lookup),
                ]
                .concat(),
            },
            FriBatchInfo {
                point: g * zeta,
                polynomials: [
                    FriPolynomialInfo::from_range(2, 0..config.num_challenges),
                    FriPolynomialInfo::from_range(2, num_zs_pp..num_zs_pp + num_lookup),
                ]
                .concat(),
            },
        ],
    };

    let opening_proof = PolynomialBatch::<F, C, D>::prove_openings(
        &instance,
        &[constants_sigmas, &wires, &zs_pp_lookup, &quotient],
        &mut challenger,
        &common.fri_params,
        None,
        None,
        &mut timing,
    );

    ProofWithPublicInputs {
        proof: Proof {
            wires_cap: wires.merkle_tree.cap.clone(),
            plonk_zs_partial_products_cap: zs_pp_lookup.merkle_tree.cap.clone(),
            quotient_polys_cap: quotient.merkle_tree.cap.clone(),
            openings,
            opening_proof,
        },
        public_inputs,
    }
}

fn attack(data: &CircuitData<F, C, D>, false_public_inputs: Vec<F>, label: &str) {
    let forged = forge(data, false_public_inputs.clone());

    // The uncompressed verifier validates the shape and refuses.
    let plain = data.verify(forged.clone());
    println!(
        "[{label}] verify(forged)            -> Err({})",
        plain.as_ref().unwrap_err().to_string().lines().next().unwrap()
    );
    assert!(plain.is_err());

    let compressed: CompressedProofWithPublicInputs<F, C, D> = data.compress(forged).unwrap();
    assert!(compressed.proof.openings.quotient_polys.is_empty());
    let res = data.verify_compressed(compressed.clone());
    println!(
        "[{label}] verify_compressed(forged) -> {res:?}   (public inputs claimed: {:?})",
        compressed.public_inputs
    );
    // Same through the verifier-only object, after a serde round trip (a proof received as JSON).
    let json = serde_json::to_string(&compressed).unwrap();
    let received: CompressedProofWithPublicInputs<F, C, D> = serde_json::from_str(&json).unwrap();
    let res2 = data.verifier_data().verify_compressed(received);
    println!("[{label}] verify_compressed(serde_json round trip of forged) -> {res2:?}");
    assert!(
        res.is_ok() && res2.is_ok(),
        "forged proof was rejected (the defect is not present)"
    );
    println!("[{label}] FORGERY ACCEPTED");
}

/// x * x = y, y public, x range-checked to 8 bits. Claim y = 10 (not a square of an 8-bit number).
#[test]
fn forged_compressed_proof_is_accepted_arith() {
    let config = CircuitConfig::standard_recursion_config();
    let mut builder = CircuitBuilder::<F, D>::new(config);
    let x = builder.add_virtual_target();
    builder.range_check(x, 8);
    let y = builder.mul(x, x);
    builder.register_public_input(y);
    let data = builder.build::<C>();

    // Sanity: the honest flow works, compressed and uncompressed.
    let mut pw = PartialWitness::new();
    pw.set_target(x, F::from_canonical_u64(3)).unwrap();
    let honest = data.prove(pw).unwrap();
    assert_eq!(honest.public_inputs, vec![F::from_canonical_u64(9)]);
    data.verify(honest.clone()).unwrap();
    data.verify_compressed(data.compress(honest).unwrap())
        .unwrap();

    attack(&data, vec![F::from_canonical_u64(10)], "x*x=y, claim y=10");
}

/// A circuit with a lookup table: out = TIP5[inp], both public. Claim TIP5[1] = 12345.
#[test]
fn forged_compressed_proof_is_accepted_lookup() {
    let config = CircuitConfig::standard_recursion_config();
    let mut builder = CircuitBuilder::<F, D>::new(config);
    let inputs: Vec<u16> = (0..256).collect();
    let lut = builder.add_lookup_table_from_table(&inputs, &TIP5_TABLE);
    let inp = builder.add_virtual_target();
    let out = builder.add_lookup_from_index(inp, lut);
    builder.register_public_input(inp);
    builder.register_public_input(out);
    let data = builder.build::<C>();

    let mut pw = PartialWitness::new();
    pw.set_target(inp, F::from_canonical_u64(1)).unwrap();
    let honest = data.prove(pw).unwrap();
    assert_eq!(
        honest.public_inputs,
        vec![F::ONE, F::from_canonical_u16(TIP5_TABLE[1])]
    );
    data.verify_compressed(data.compress(honest).unwrap())
        .unwrap();

    attack(
        &data,
        vec![F::ONE, F::from_canonical_u64(12345)],
        "out=TIP5[inp], claim TIP5[1]=12345",
    );
}
