//! C02 audit: experiments backing the "ruled out" list in out/notes.md.
//! Run: cargo test --offline --release -p plonky2 --features verif_hooks --test c02_audit -- --nocapture --test-threads=1

use std::panic::{catch_unwind, AssertUnwindSafe};

use plonky2::field::types::Field;
use plonky2::iop::generator::generate_partial_witness;
use plonky2::iop::target::Target;
use plonky2::iop::witness::{PartialWitness, PartitionWitness, WitnessWrite};
use plonky2::plonk::circuit_builder::CircuitBuilder;
use plonky2::plonk::circuit_data::{CircuitConfig, CircuitData};
use plonky2::plonk::config::{GenericConfig, PoseidonGoldilocksConfig};
use plonky2::plonk::proof::ProofWithPublicInputs;
use plonky2::plonk::prover::prove_with_partition_witness;
use plonky2::util::timing::TimingTree;

const D: usize = 2;
type C = PoseidonGoldilocksConfig;
type F = <C as GenericConfig<D>>::F;

fn overwrite(pw: &mut PartitionWitness<F>, t: Target, v: F) {
    let idx = t.index(pw.num_wires, pw.degree);
    let rep = pw.representative_map[idx];
    pw.values[rep] = Some(v);
}

/// Outcome of "prove from a tampered partition witness, then verify".
#[derive(Debug)]
enum Outcome {
    ProverPanicked,
    ProverErr,
    VerifierRejected,
    ACCEPTED,
}

fn prove_and_verify(data: &CircuitData<F, C, D>, pw: PartitionWitness<F>) -> Outcome {
    let res = catch_unwind(AssertUnwindSafe(|| {
        prove_with_partition_witness(
            &data.prover_only,
            &data.common,
            pw,
            &mut TimingTree::default(),
        )
    }));
    let proof: ProofWithPublicInputs<F, C, D> = match res {
        Err(_) => return Outcome::ProverPanicked,
        Ok(Err(_)) => return Outcome::ProverErr,
        Ok(Ok(p)) => p,
    };
    match catch_unwind(AssertUnwindSafe(|| data.verify(proof))) {
        Ok(Ok(())) => Outcome::ACCEPTED,
        _ => Outcome::VerifierRejected,
    }
}

#[test]
fn smoke() {
    let config = CircuitConfig::standard_recursion_config();
    let mut builder = CircuitBuilder::<F, D>::new(config);
    let x = builder.add_virtual_target();
    let y = builder.mul(x, x);
    builder.register_public_input(y);
    let data = builder.build::<C>();
    let mut pw = PartialWitness::new();
    pw.set_target(x, F::from_canonical_u64(3)).unwrap();
    let proof = data.prove(pw).unwrap();
    data.verify(proof).unwrap();
}

/// Two LUTs. A pair that is only in table B is used for a lookup into table A.
/// (Candidate: the Sum/LDC accumulators of different tables share the same polynomials.)
#[test]
fn cross_table_lookup_is_rejected() {
    let mut configs = vec![CircuitConfig::standard_recursion_config()];
    let mut c = CircuitConfig::standard_recursion_config();
    c.max_quotient_degree_factor = 16;
    c.fri_config.rate_bits = 4;
    configs.push(c);
    let mut c = CircuitConfig::standard_recursion_config();
    c.num_routed_wires = 37;
    c.num_challenges = 3;
    configs.push(c);
    for (config, compensate) in configs
        .into_iter()
        .flat_map(|c| [(c.clone(), false), (c, true)])
    {
        #[cfg(feature = "verif_hooks")]
        plonky2::plonk::prover::verif_hooks::SLDC_COMPENSATE
            .store(compensate, std::sync::atomic::Ordering::Relaxed);
        println!(
            "-- routed={} qdf={} challenges={}",
            config.num_routed_wires, config.max_quotient_degree_factor, config.num_challenges
        );
        let mut builder = CircuitBuilder::<F, D>::new(config);
        let a = builder.add_lookup_table_from_table(&[0, 1, 2, 3], &[10, 11, 12, 13]);
        let b = builder.add_lookup_table_from_table(&[0, 1, 2, 3], &[20, 21, 22, 23]);
        let ia = builder.add_virtual_target();
        let ib = builder.add_virtual_target();
        let oa = builder.add_lookup_from_index(ia, a);
        let ob = builder.add_lookup_from_index(ib, b);
        builder.register_public_input(oa);
        builder.register_public_input(ob);
        let data = builder.build::<C>();

        let mut inputs = PartialWitness::new();
        inputs.set_target(ia, F::from_canonical_u64(1)).unwrap();
        inputs.set_target(ib, F::from_canonical_u64(2)).unwrap();
        let pw = generate_partial_witness(inputs.clone(), &data.prover_only, &data.common).unwrap();
        // honest
        let o = prove_and_verify(&data, pw.clone());
        println!("compensate={compensate} honest: {o:?}");
        assert!(matches!(o, Outcome::ACCEPTED));

        // oa := 21 (= B[1]) although looked up in A.
        let mut bad = pw.clone();
        overwrite(&mut bad, oa, F::from_canonical_u64(21));
        let o = prove_and_verify(&data, bad);
        println!("compensate={compensate} cross-table pair: {o:?}");
        assert!(!matches!(o, Outcome::ACCEPTED));

        // oa := 999 (in no table)
        let mut bad = pw.clone();
        overwrite(&mut bad, oa, F::from_canonical_u64(999));
        let o = prove_and_verify(&data, bad);
        println!("compensate={compensate} non-table pair: {o:?}");
        assert!(!matches!(o, Outcome::ACCEPTED));
    }
    #[cfg(feature = "verif_hooks")]
    plonky2::plonk::prover::verif_hooks::SLDC_COMPENSATE
        .store(false, std::sync::atomic::Ordering::Relaxed);
}

/// Public input / copy class / gate output corruptions on a small arithmetic circuit with a
/// non-power-of-two quotient degree factor and other configs.
#[test]
fn arith_corruptions_rejected_across_configs() {
    let mut configs = vec![("standard", CircuitConfig::standard_recursion_config())];
    let mut c = CircuitConfig::standard_recursion_config();
    c.max_quotient_degree_factor = 16;
    c.fri_config.rate_bits = 4;
    configs.push(("qdf16", c));
    let mut c = CircuitConfig::standard_recursion_config();
    c.num_challenges = 3;
    configs.push(("3 challenges", c));
    let mut c = CircuitConfig::standard_recursion_config();
    c.num_routed_wires = 37;
    configs.push(("37 routed", c));

    for (name, config) in configs {
        let mut builder = CircuitBuilder::<F, D>::new(config);
        let x = builder.add_virtual_target();
        let y = builder.add_virtual_target();
        let xy = builder.mul(x, y);
        let s = builder.add(xy, x);
        builder.range_check(x, 8);
        let eq = builder.is_equal(x, y);
        builder.register_public_input(s);
        builder.register_public_input(eq.target);
        let data = builder.build::<C>();
        let mut inputs = PartialWitness::new();
        inputs.set_target(x, F::from_canonical_u64(5)).unwrap();
        inputs.set_target(y, F::from_canonical_u64(7)).unwrap();
        let pw = generate_partial_witness(inputs, &data.prover_only, &data.common).unwrap();
        let o = prove_and_verify(&data, pw.clone());
        println!("[{name}] honest: {o:?}");
        assert!(matches!(o, Outcome::ACCEPTED));
        for (what, t, v) in [
            ("product", xy, 36u64),
            ("sum / public input", s, 41),
            ("x out of range", x, 300),
            ("is_equal flag", eq.target, 1),
        ] {
            let mut bad = pw.clone();
            overwrite(&mut bad, t, F::from_canonical_u64(v));
            let o = prove_and_verify(&data, bad);
            println!("[{name}] corrupt {what}: {o:?}");
            assert!(!matches!(o, Outcome::ACCEPTED));
        }
        // Declared public inputs differ from the witness.
        let mut proof = prove_with_partition_witness(
            &data.prover_only,
            &data.common,
            pw.clone(),
            &mut TimingTree::default(),
        )
        .unwrap();
        proof.public_inputs[0] += F::ONE;
        assert!(data.verify(proof).is_err());
    }
}
