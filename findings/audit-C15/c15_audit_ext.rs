//! C15 audit: extension-field FFT / polynomial algebra consistency with the base field.
use plonky2_field::extension::quadratic::QuadraticExtension;
use plonky2_field::extension::quartic::QuarticExtension;
use plonky2_field::extension::quintic::QuinticExtension;
use plonky2_field::extension::{Extendable, FieldExtension};
use plonky2_field::fft::{fft, fft_root_table, fft_with_options, ifft};
use plonky2_field::goldilocks_field::GoldilocksField;
use plonky2_field::polynomial::{PolynomialCoeffs, PolynomialValues};
use plonky2_field::types::{Field, Sample};

type F = GoldilocksField;

fn roots_agree<const D: usize>()
where
    F: Extendable<D>,
{
    type E<const D: usize> = <F as Extendable<D>>::Extension;
    for k in 0..=F::TWO_ADICITY {
        let b: E<D> = F::primitive_root_of_unity(k).into();
        assert_eq!(
            <E<D> as Field>::primitive_root_of_unity(k),
            b,
            "D={D} k={k}: extension root of unity differs from base"
        );
    }
    // NB: E::coset_shift() != F::coset_shift() (different multiplicative generators); all plonky2
    // call sites use `F::coset_shift().into()`, so this is not a defect.
    for e in [0usize, 1, 5, 31, 32, 33, 34, 64, 65, 100] {
        let two_e = <E<D> as Field>::TWO.exp_u64(e as u64);
        assert_eq!(<E<D> as Field>::inverse_2exp(e) * two_e, <E<D> as Field>::ONE);
        assert_eq!(F::inverse_2exp(e) * F::TWO.exp_u64(e as u64), F::ONE);
    }
}

#[test]
fn subgroup_definitions() {
    for k in 0..=12usize {
        let g = F::primitive_root_of_unity(k);
        if k > 0 {
            assert_eq!(g.exp_u64(1 << (k - 1)), F::NEG_ONE, "order of root k={k}");
        } else {
            assert_eq!(g, F::ONE);
        }
        let sub = F::two_adic_subgroup(k);
        assert_eq!(sub.len(), 1 << k);
        for (i, &x) in sub.iter().enumerate() {
            assert_eq!(x, g.exp_u64(i as u64));
        }
        let sh = F::coset_shift();
        let coset = F::cyclic_subgroup_coset_known_order(g, sh, 1 << k);
        for (i, &x) in coset.iter().enumerate() {
            assert_eq!(x, sh * g.exp_u64(i as u64));
        }
    }
    for k in 13..=F::TWO_ADICITY {
        let g = F::primitive_root_of_unity(k);
        assert_eq!(g.exp_power_of_2(k - 1), F::NEG_ONE, "order of root k={k}");
    }
}

#[test]
fn ext_roots_match_base() {
    roots_agree::<2>();
    roots_agree::<4>();
    roots_agree::<5>();
}

fn ext_fft_componentwise<const D: usize>()
where
    F: Extendable<D>,
{
    type E<const D: usize> = <F as Extendable<D>>::Extension;
    for lg_n in 0..=9usize {
        let n = 1 << lg_n;
        let table = fft_root_table::<E<D>>(n);
        for r in 0..=lg_n {
            let mut c: Vec<E<D>> = <E<D> as Sample>::rand_vec(n >> r);
            c.resize(n, <E<D> as Field>::ZERO);
            let got = fft(PolynomialCoeffs::new(c.clone()));
            let got2 = fft_with_options(PolynomialCoeffs::new(c.clone()), Some(r), Some(&table));
            assert_eq!(got, got2);
            // componentwise base-field FFT
            let mut comps: Vec<Vec<F>> = Vec::new();
            for d in 0..D {
                let cd: Vec<F> = c.iter().map(|x| x.to_basefield_array()[d]).collect();
                comps.push(fft(PolynomialCoeffs::new(cd)).values);
            }
            for i in 0..n {
                let arr: [F; D] = core::array::from_fn(|d| comps[d][i]);
                assert_eq!(
                    got.values[i],
                    <E<D> as FieldExtension<D>>::from_basefield_array(arr),
                    "D={D} lg_n={lg_n} i={i}"
                );
            }
            assert_eq!(ifft(got.clone()).coeffs, c);
            // coset variants
            let sh = <E<D> as Sample>::rand();
            let p = PolynomialCoeffs::new(c.clone());
            let v = p.coset_fft(sh);
            let w = <E<D> as Field>::primitive_root_of_unity(lg_n);
            for i in [0usize, n / 2, n - 1] {
                assert_eq!(v.values[i], p.eval(sh * w.exp_u64(i as u64)));
            }
            assert_eq!(PolynomialValues::new(v.values).coset_ifft(sh).coeffs, c);
        }
    }
}

#[test]
fn ext_fft() {
    ext_fft_componentwise::<2>();
    ext_fft_componentwise::<4>();
    ext_fft_componentwise::<5>();
}

#[test]
fn ext_div_rem() {
    type E = QuarticExtension<F>;
    let _ = (
        QuadraticExtension::<F>::ZERO,
        QuinticExtension::<F>::ZERO,
    );
    for la in 0..=14usize {
        for lb in 1..=14usize {
            for rep in 0..3 {
                let mut a = E::rand_vec(la);
                let mut b = E::rand_vec(lb);
                if rep >= 1 {
                    // zero out some coefficients
                    for (i, x) in a.iter_mut().enumerate() {
                        if (i * 7 + rep) % 3 != 0 {
                            *x = E::ZERO;
                        }
                    }
                    for (i, x) in b.iter_mut().enumerate() {
                        if (i * 5 + rep) % 3 == 0 && i != lb / 2 {
                            *x = E::ZERO;
                        }
                    }
                }
                if b.iter().all(|x| x.is_zero()) {
                    b[0] = E::ONE;
                }
                let pa = PolynomialCoeffs::new(a.clone());
                let pb = PolynomialCoeffs::new(b.clone());
                for (q, r) in [pa.div_rem(&pb), pa.div_rem_long_division(&pb)] {
                    assert_eq!(&(&q * &pb) + &r, pa, "la={la} lb={lb} rep={rep}");
                    assert!(r.degree_plus_one() < pb.degree_plus_one());
                }
            }
        }
    }
}
