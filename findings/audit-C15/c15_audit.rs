//! C15 audit: differential tests of transforms / polynomial algebra against naive definitions.
use plonky2_field::fft::{fft, fft_root_table, fft_with_options, ifft, ifft_with_options};
use plonky2_field::goldilocks_field::GoldilocksField;
use plonky2_field::interpolation::{barycentric_weights, interpolant, interpolate, interpolate2};
use plonky2_field::packable::Packable;
use plonky2_field::packed::PackedField;
use plonky2_field::polynomial::{PolynomialCoeffs, PolynomialValues};
use plonky2_field::types::{Field, Sample};
use plonky2_field::zero_poly_coset::ZeroPolyOnCoset;
use plonky2_util::{log2_strict, reverse_index_bits, reverse_index_bits_in_place};
use rand::{Rng, RngCore};

/// splitmix64-based deterministic RNG (rand's StdRng feature is not enabled in this workspace).
struct StdRng(u64);
impl StdRng {
    fn seed_from_u64(s: u64) -> Self {
        StdRng(s)
    }
}
impl RngCore for StdRng {
    fn next_u32(&mut self) -> u32 {
        (self.next_u64() >> 32) as u32
    }
    fn next_u64(&mut self) -> u64 {
        self.0 = self.0.wrapping_add(0x9E3779B97F4A7C15);
        let mut z = self.0;
        z = (z ^ (z >> 30)).wrapping_mul(0xBF58476D1CE4E5B9);
        z = (z ^ (z >> 27)).wrapping_mul(0x94D049BB133111EB);
        z ^ (z >> 31)
    }
    fn fill_bytes(&mut self, dest: &mut [u8]) {
        for b in dest.iter_mut() {
            *b = self.next_u64() as u8;
        }
    }
    fn try_fill_bytes(&mut self, dest: &mut [u8]) -> Result<(), rand::Error> {
        self.fill_bytes(dest);
        Ok(())
    }
}

type F = GoldilocksField;

fn naive_eval(c: &[F], x: F) -> F {
    let mut s = F::ZERO;
    let mut p = F::ONE;
    for &ci in c {
        s += ci * p;
        p *= x;
    }
    s
}

fn naive_dft(c: &[F], shift: F) -> Vec<F> {
    let lg = log2_strict(c.len());
    F::two_adic_subgroup(lg)
        .into_iter()
        .map(|w| naive_eval(c, shift * w))
        .collect()
}

fn naive_mul(a: &[F], b: &[F]) -> Vec<F> {
    if a.is_empty() || b.is_empty() {
        return vec![];
    }
    let mut out = vec![F::ZERO; a.len() + b.len() - 1];
    for (i, &x) in a.iter().enumerate() {
        for (j, &y) in b.iter().enumerate() {
            out[i + j] += x * y;
        }
    }
    out
}

/// Random vector with a random sparsity pattern.
fn sparse_vec(rng: &mut StdRng, len: usize) -> Vec<F> {
    let mode = rng.gen_range(0..4);
    (0..len)
        .map(|_| match mode {
            0 => F::sample(rng),
            1 => {
                if rng.gen_bool(0.5) {
                    F::sample(rng)
                } else {
                    F::ZERO
                }
            }
            2 => {
                if rng.gen_bool(0.15) {
                    F::sample(rng)
                } else {
                    F::ZERO
                }
            }
            _ => F::from_canonical_u64(rng.gen_range(0..3)),
        })
        .collect()
}

#[test]
fn packing_width() {
    println!(
        "Goldilocks packing WIDTH = {}",
        <F as Packable>::Packing::WIDTH
    );
}

#[test]
fn fft_all_sizes_all_r_all_tables() {
    let mut rng = StdRng::seed_from_u64(15);
    for lg_n in 0..=11usize {
        let n = 1 << lg_n;
        let table = fft_root_table::<F>(n);
        for r in 0..=lg_n {
            for rep in 0..3 {
                let nz = n >> r;
                let mut c = if rep == 2 {
                    sparse_vec(&mut rng, nz)
                } else {
                    F::rand_vec(nz)
                };
                c.resize(n, F::ZERO);
                for shift in [F::ONE, F::coset_shift(), F::sample(&mut rng)] {
                    let expect = naive_dft(&c, shift);
                    let p = PolynomialCoeffs::new(c.clone());
                    for (zf, tb) in [
                        (None, None),
                        (Some(r), None),
                        (None, Some(&table)),
                        (Some(r), Some(&table)),
                        (Some(r / 2), Some(&table)),
                    ] {
                        let got = p.coset_fft_with_options(shift, zf, tb);
                        assert_eq!(
                            got.values, expect,
                            "coset_fft lg_n={lg_n} r={r} zf={zf:?} table={} shift={shift}",
                            tb.is_some()
                        );
                    }
                    if shift == F::ONE {
                        assert_eq!(fft(p.clone()).values, expect);
                        assert_eq!(
                            fft_with_options(p.clone(), Some(r), Some(&table)).values,
                            expect
                        );
                    }
                    // Inverses.
                    let v = PolynomialValues::new(expect.clone());
                    let back = v.clone().coset_ifft(shift);
                    assert_eq!(back.coeffs, c, "coset_ifft lg_n={lg_n} r={r}");
                    if shift == F::ONE {
                        assert_eq!(ifft(v.clone()).coeffs, c);
                        assert_eq!(
                            ifft_with_options(v.clone(), None, Some(&table)).coeffs,
                            c
                        );
                    }
                }
                // ifft with a zero tail in the *values*.
                let vals = PolynomialValues::new(c.clone());
                let a = ifft(vals.clone());
                for tb in [None, Some(&table)] {
                    let b = ifft_with_options(vals.clone(), Some(r), tb);
                    assert_eq!(a.coeffs, b.coeffs, "ifft zero tail lg_n={lg_n} r={r}");
                }
                assert_eq!(fft(a).values, c);
            }
        }
    }
}

#[test]
fn fft_big_sizes_spot() {
    let mut rng = StdRng::seed_from_u64(16);
    for lg_n in 12..=18usize {
        let n = 1 << lg_n;
        let table = fft_root_table::<F>(n);
        for r in [0, 1, 2, 3, 5, lg_n - 1, lg_n] {
            let mut c = F::rand_vec(n >> r);
            c.resize(n, F::ZERO);
            let p = PolynomialCoeffs::new(c.clone());
            let a = fft_with_options(p.clone(), Some(r), None);
            let b = fft_with_options(p.clone(), None, Some(&table));
            let d = fft_with_options(p.clone(), Some(r), Some(&table));
            assert_eq!(a, b);
            assert_eq!(a, d);
            let g = F::primitive_root_of_unity(lg_n);
            for _ in 0..8 {
                let i = rng.gen_range(0..n);
                assert_eq!(a.values[i], p.eval(g.exp_u64(i as u64)), "lg_n={lg_n} r={r}");
            }
            assert_eq!(ifft(a).coeffs, c);
        }
    }
}

#[test]
fn lde_variants() {
    let mut rng = StdRng::seed_from_u64(17);
    for lg_n in 0..=7usize {
        for rate_bits in 0..=4usize {
            let n = 1 << lg_n;
            let c = sparse_vec(&mut rng, n);
            let vals = PolynomialValues::new(naive_dft(&c, F::ONE));
            let mut cp = c.clone();
            cp.resize(n << rate_bits, F::ZERO);
            assert_eq!(
                PolynomialCoeffs::new(c.clone()).lde(rate_bits).coeffs,
                cp
            );
            assert_eq!(
                vals.clone().lde(rate_bits).values,
                naive_dft(&cp, F::ONE),
                "lde {lg_n} {rate_bits}"
            );
            assert_eq!(
                vals.clone().lde_onto_coset(rate_bits).values,
                naive_dft(&cp, F::coset_shift()),
                "lde_onto_coset {lg_n} {rate_bits}"
            );
            let dp1 = c.iter().rposition(|x| x.is_nonzero()).map_or(0, |i| i + 1);
            assert_eq!(vals.degree_plus_one(), dp1);
            assert_eq!(vals.degree(), dp1.saturating_sub(1));
        }
    }
}

#[test]
fn mul_all_small() {
    let mut rng = StdRng::seed_from_u64(18);
    for la in 0..=18usize {
        for lb in 0..=18usize {
            for _ in 0..4 {
                let a = sparse_vec(&mut rng, la);
                let b = sparse_vec(&mut rng, lb);
                let got = &PolynomialCoeffs::new(a.clone()) * &PolynomialCoeffs::new(b.clone());
                let expect = PolynomialCoeffs::new(naive_mul(&a, &b));
                assert_eq!(got, expect, "mul la={la} lb={lb}");
            }
        }
    }
}

fn check_div(a: &[F], b: &[F]) {
    let pa = PolynomialCoeffs::new(a.to_vec());
    let pb = PolynomialCoeffs::new(b.to_vec());
    for (name, (q, r)) in [
        ("div_rem", pa.div_rem(&pb)),
        ("long", pa.div_rem_long_division(&pb)),
    ] {
        let qb = PolynomialCoeffs::new(naive_mul(&q.trimmed().coeffs, &pb.trimmed().coeffs));
        let recomposed = &qb + &r;
        assert_eq!(recomposed, pa, "{name}: a != q*b + r; a={a:?} b={b:?} q={q:?} r={r:?}");
        assert!(
            r.degree_plus_one() < pb.degree_plus_one(),
            "{name}: deg r >= deg b; a={a:?} b={b:?} q={q:?} r={r:?}"
        );
    }
}

#[test]
fn div_rem_all_small() {
    let mut rng = StdRng::seed_from_u64(19);
    for la in 0..=24usize {
        for lb in 1..=24usize {
            for _ in 0..12 {
                let a = sparse_vec(&mut rng, la);
                let mut b = sparse_vec(&mut rng, lb);
                if b.iter().all(|x| x.is_zero()) {
                    let i = rng.gen_range(0..lb);
                    b[i] = F::ONE;
                }
                check_div(&a, &b);
                // exact multiples and equal degree
                let m = naive_mul(&a, &b);
                check_div(&m, &b);
                if !a.is_empty() {
                    check_div(&m, &a.iter().all(|x| x.is_zero()).then(|| vec![F::ONE]).unwrap_or(a.clone()));
                }
            }
        }
    }
    // Larger
    for _ in 0..200 {
        let la = rng.gen_range(0..300);
        let lb = rng.gen_range(1..300);
        let a = sparse_vec(&mut rng, la);
        let mut b = sparse_vec(&mut rng, lb);
        if b.iter().all(|x| x.is_zero()) {
            b[0] = F::TWO;
        }
        check_div(&a, &b);
    }
}

#[test]
fn inv_mod_xn_all_small() {
    let mut rng = StdRng::seed_from_u64(20);
    for lh in 1..=20usize {
        for n in 1..=40usize {
            for _ in 0..6 {
                let mut h = sparse_vec(&mut rng, lh);
                if h[0].is_zero() {
                    h[0] = F::sample(&mut rng) + F::ONE;
                    if h[0].is_zero() {
                        h[0] = F::ONE;
                    }
                }
                let inv = PolynomialCoeffs::new(h.clone()).inv_mod_xn(n);
                assert!(inv.len() <= n, "inv too long lh={lh} n={n}");
                let mut prod = naive_mul(&h, &inv.coeffs);
                prod.truncate(n);
                let mut one = vec![F::ZERO; prod.len()];
                one[0] = F::ONE;
                assert_eq!(prod, one, "inv_mod_xn h={h:?} n={n} inv={inv:?}");
            }
        }
    }
}

#[test]
fn divide_by_linear_all_small() {
    let mut rng = StdRng::seed_from_u64(21);
    for l in 0..=20usize {
        for _ in 0..6 {
            let p = sparse_vec(&mut rng, l);
            for z in [F::ZERO, F::ONE, F::NEG_ONE, F::sample(&mut rng)] {
                let pp = PolynomialCoeffs::new(p.clone());
                let q = pp.divide_by_linear(z);
                let ev = naive_eval(&p, z);
                assert_eq!(pp.eval(z), ev);
                let rec = &PolynomialCoeffs::new(naive_mul(&q.coeffs, &[-z, F::ONE]))
                    + &PolynomialCoeffs::new(vec![ev]);
                assert_eq!(rec, pp, "divide_by_linear l={l} z={z}");
                assert!(q.len() <= l.saturating_sub(1));
            }
        }
    }
}

#[test]
fn interpolation_all_small() {
    let mut rng = StdRng::seed_from_u64(22);
    for n in 0..=20usize {
        for rep in 0..5 {
            let mut xs: Vec<F> = Vec::new();
            while xs.len() < n {
                let x = if rep == 0 {
                    F::from_canonical_u64(xs.len() as u64)
                } else if rep == 1 {
                    // points inside the subgroup that interpolant itself evaluates on
                    F::primitive_root_of_unity(5).exp_u64(xs.len() as u64)
                } else {
                    F::sample(&mut rng)
                };
                if !xs.contains(&x) {
                    xs.push(x);
                }
            }
            let pts: Vec<(F, F)> = xs
                .iter()
                .map(|&x| {
                    (
                        x,
                        if rep == 3 {
                            F::ZERO
                        } else {
                            F::sample(&mut rng)
                        },
                    )
                })
                .collect();
            let p = interpolant(&pts);
            assert!(p.len() <= n, "interpolant degree n={n}");
            for &(x, y) in &pts {
                assert_eq!(p.eval(x), y, "interpolant n={n} rep={rep}");
            }
            let w = barycentric_weights(&pts);
            for _ in 0..3 {
                let x = F::sample(&mut rng);
                assert_eq!(interpolate(&pts, x, &w), p.eval(x));
            }
            if n == 2 {
                let x = F::sample(&mut rng);
                assert_eq!(interpolate2([pts[0], pts[1]], x), p.eval(x));
                assert_eq!(interpolate2([pts[0], pts[1]], pts[0].0), pts[0].1);
                assert_eq!(interpolate2([pts[0], pts[1]], pts[1].0), pts[1].1);
            }
        }
    }
}

#[test]
fn zero_poly_on_coset() {
    for n_log in 0..=6usize {
        for rate_bits in 0..=4usize {
            let z = ZeroPolyOnCoset::<F>::new(n_log, rate_bits);
            let w = F::primitive_root_of_unity(n_log + rate_bits);
            let g = F::coset_shift();
            let n = 1u64 << n_log;
            for i in 0..(1usize << (n_log + rate_bits)) + 3 {
                let x = g * w.exp_u64(i as u64);
                let zh = x.exp_u64(n) - F::ONE;
                assert_eq!(z.eval(i), zh);
                assert_eq!(z.eval_inverse(i), zh.inverse());
                let l0 = zh / (F::from_canonical_u64(n) * (x - F::ONE));
                assert_eq!(z.eval_l_0(i, x), l0);
                let packed: <F as Packable>::Packing = z.eval_inverse_packed(i);
                for (j, &v) in packed.as_slice().iter().enumerate() {
                    assert_eq!(v, z.eval_inverse(i + j));
                }
            }
        }
    }
}

fn rev_naive<T: Clone>(arr: &[T]) -> Vec<T> {
    let n = arr.len();
    let lb = log2_strict(n);
    (0..n)
        .map(|i| {
            let j = if lb == 0 {
                0
            } else {
                i.reverse_bits() >> (usize::BITS as usize - lb)
            };
            arr[j].clone()
        })
        .collect()
}

fn check_rev<T: Copy + PartialEq + core::fmt::Debug>(lb: usize, make: impl Fn(usize) -> T) {
    let arr: Vec<T> = (0..1usize << lb).map(&make).collect();
    let expect = rev_naive(&arr);
    assert!(reverse_index_bits(&arr) == expect, "reverse_index_bits lb={lb}");
    let mut a2 = arr.clone();
    reverse_index_bits_in_place(&mut a2);
    assert!(a2 == expect, "reverse_index_bits_in_place lb={lb} size={}", core::mem::size_of::<T>());
}

#[test]
fn bit_reversal_all_sizes() {
    for lb in 0..=22usize {
        check_rev::<u8>(lb, |i| (i as u8) ^ ((i >> 8) as u8).wrapping_mul(31) ^ ((i >> 16) as u8).wrapping_mul(7));
        check_rev::<u16>(lb, |i| (i as u16) ^ ((i >> 16) as u16).wrapping_mul(31));
        check_rev::<u32>(lb, |i| i as u32);
        check_rev::<u64>(lb, |i| i as u64);
    }
    for lb in 0..=19usize {
        check_rev::<[u64; 4]>(lb, |i| [i as u64, 1, 2, !(i as u64)]);
        check_rev::<[u8; 3]>(lb, |i| [i as u8, (i >> 8) as u8, (i >> 16) as u8]);
    }
    for lb in 0..=12usize {
        check_rev::<[u64; 100]>(lb, |i| [i as u64; 100]);
    }
    // Large-but-not-BIG T: chunked path with tiny matrices (lb_n = 3, 4, 5, ...).
    for lb in 0..=9usize {
        check_rev::<[u8; 9000]>(lb, |i| {
            let mut a = [0u8; 9000];
            a[0] = i as u8;
            a[1] = (i >> 8) as u8;
            a[8999] = !(i as u8);
            a
        });
        check_rev::<[u8; 16383]>(lb, |i| {
            let mut a = [7u8; 16383];
            a[0] = i as u8;
            a[16382] = (i >> 8) as u8;
            a
        });
        check_rev::<[u8; 4097]>(lb, |i| {
            let mut a = [3u8; 4097];
            a[0] = i as u8;
            a[4096] = (i >> 8) as u8;
            a
        });
    }
    // Big T (>= 1<<14 bytes)
    for lb in 0..=8usize {
        let arr: Vec<Box<[u64; 2048]>> = (0..1usize << lb).map(|i| Box::new([i as u64; 2048])).collect();
        // Box is pointer-sized; use actual big T instead:
        drop(arr);
        let arr: Vec<[u64; 2048]> = (0..1usize << lb).map(|i| [i as u64; 2048]).collect();
        let expect = rev_naive(&arr);
        let mut a2 = arr.clone();
        reverse_index_bits_in_place(&mut a2);
        assert!(a2 == expect, "big T lb={lb}");
    }
}
